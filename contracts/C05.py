"""C05 - State construction accepts exactly conforming values and stores them faithfully.
(C04-P2/P3 clauses about immutability and idempotence of the conversions live here too.)

Functions under contract: state/validation.py - every validator closure returned by the
_prepare_validator_of_* factories, attribute_validator (dispatch), and
state/structure.py::StateAttribute.validated, State.__init__.

Structural induction over the annotation tree, one level per contract: the validators of the
argument annotations are arbitrary pure partial functions f with v_ok(f, x) / v_res(f, x) /
v_exc(f, x) (induction hypothesis: v_ok(f, x) <=> x conforms to the argument annotation and
v_res(f, x) is its documented conversion).  Conf_A(v) for each shape is written from the typing
meaning, not from the code:
    Any: always;  None: v is None;  class / protocol / enum: isinstance (so bool conforms to int,
    int does not conform to float);  Literal: equal to a listed value of the *same type* (PEP 586);
    Callable: callable(v);  Sequence[A] / tuple[A, ...]: a collections.abc.Sequence that is not
    str/bytes/bytearray whose items all conform;  tuple[A1..An]: such a sequence of length n with
    item i conforming to Ai;  Set[A]/frozenset[A]: a collections.abc.Set with conforming members;
    Mapping[K, V]: a collections.abc.Mapping with conforming keys and values;  Union: some
    alternative conforms (the first conforming alternative converts).
The reflective annotation resolver (state/attributes.py) is outside the verifier's reach: it is
covered by the bounded native sweep of harness/C05_replay.py only (never counted as proved).
"""
from __future__ import annotations

import ast

import z3

from .common import *
from pyvc.lib import dict_parts
from pyvc.state import QFact
from pyvc import lib as L

FILE = "state/validation.py"
v_ok = z3.Function("C05.v_ok", Val, Val, B)
v_res = z3.Function("C05.v_res", Val, Val, Val)
v_exc = z3.Function("C05.v_exc", Val, Val, Val)


class _Val(Contract):
    props = ("C05", "C04")
    factory = ""
    trusted = ("PEP 634 sequence / mapping patterns", "T-COLL (tuple/frozenset/dict comprehension, MappingProxyType, enumerate, "
               "dict.items)", "S6 (== is reflexive on stored values)")
    assumptions = (
        "induction hypothesis: the validators of argument annotations are pure partial functions that raise only Exceptions",
        "user classes do not override __instancecheck__ in ways that contradict isinstance (nominal typing)",
    )

    def is_validator(self, it, f):
        st = it.st
        st.assume(V.is_fun(f))
        x = z3.Const("x!iv", Val)
        e = v_exc(f, x)
        st.assume(z3.ForAll([x], z3.Implies(z3.Not(v_ok(f, x)),
                                            z3.And(V.is_ref(e), V.addr(e) >= 2_000_000, V.addr(e) < 3_000_000,
                                                   V.subclass(V.class_of(V.addr(e)), it.ct.id("Exception")))),
                            patterns=[v_exc(f, x)]))

    def call_unknown(self, it, f, cargs, node):
        if len(cargs.pos) == 1 and not cargs.kw and cargs.star is None and it.st.entails(V.is_fun(f)):
            x = cargs.pos[0]
            return it.call_pure(v_ok(f, x), v_res(f, x), v_exc(f, x), "validator")
        return None

    def base_setup(self, it, env):
        st = it.st
        self.value = st.fresh_val("value")
        env.vars["formatted_type"] = V.VStr(st.fresh("formatted_type", I))
        env.vars["annotation"] = st.fresh_val("annotation")
        st.meta.update(value=self.value)
        st.assume(z3.Implies(V.is_ref(self.value), z3.And(V.addr(self.value) >= 0, V.addr(self.value) < 1_000_000)))
        return None, CallArgs([self.value])

    def exception_ok(self, it, exc):
        it.st.check("P2:a-rejected-value-raises-an-Exception", is_exc(it, exc, "Exception"))

    def setup(self, it, env):
        return self.base_setup(it, env)


def seq_conf(it, v):
    return L.is_sequence_pattern(it, v)


class AnyV(_Val):
    file, func, name = FILE, "_prepare_validator_of_any.validator", "C05/validation:any"

    def on_return(self, it, ret):
        it.st.check("P1:Any-accepts-every-value-unchanged", ret == self.value)

    def on_raise(self, it, exc):
        it.st.check("P1:Any-never-rejects", z3.BoolVal(False))


class NoneV(_Val):
    file, func, name = FILE, "_prepare_validator_of_none.validator", "C05/validation:none"

    def on_return(self, it, ret):
        it.st.check("P1:None-accepts-exactly-None", z3.And(V.is_none(self.value), ret == self.value))

    def on_raise(self, it, exc):
        it.st.check("P2:None-rejects-everything-else", z3.Not(V.is_none(self.value)))
        self.exception_ok(it, exc)


class TypeV(_Val):
    file, func, name = FILE, "_prepare_validator_of_type.type_validator", "C05/validation:type"

    def setup(self, it, env):
        r = self.base_setup(it, env)
        self.T = V.VCls(it.st.fresh("T", I))
        env.vars["validated_type"] = self.T
        return r

    def conf(self, it):
        return V.subclass(V.type_of(self.value, it.ct), V.cid(self.T))

    def on_return(self, it, ret):
        it.st.check("P1:a-class-annotation-accepts-exactly-its-instances-unchanged", z3.And(self.conf(it), ret == self.value))

    def on_raise(self, it, exc):
        it.st.check("P2:a-class-annotation-rejects-non-instances", z3.Not(self.conf(it)))
        self.exception_ok(it, exc)


class CallableV(_Val):
    file, func, name = FILE, "_prepare_validator_of_callable.validator", "C05/validation:callable"

    def callable_term(self, it):
        v = self.value
        return z3.If(z3.Or(V.is_fun(v), V.is_cls(v)), True,
                     z3.If(z3.Or(V.is_none(v), V.is_int(v), V.is_float(v), V.is_bool(v), V.is_str(v), V.is_tup(v)), False,
                           L.callable_(v)))

    def on_return(self, it, ret):
        it.st.check("P1:Callable-accepts-exactly-callables-unchanged", z3.And(self.callable_term(it), ret == self.value))

    def on_raise(self, it, exc):
        it.st.check("P2:Callable-rejects-non-callables", z3.Not(self.callable_term(it)))
        self.exception_ok(it, exc)


class LiteralV(_Val):
    file, func, name = FILE, "_prepare_validator_of_literal.validator", "C05/validation:literal"

    def setup(self, it, env):
        st = it.st
        r = self.base_setup(it, env)
        self.els, self.arr, self.lo, self.hi = sym_seq(it, "elements", "list")
        env.vars["elements"] = self.els
        st.hints += [self.hi - self.lo <= 2, self.lo == 0]
        return r

    def member(self, it):
        """PEP 586: equal to a listed value *of the same type*."""
        i = z3.Int("i!lit")
        e = z3.Select(self.arr, i)
        return z3.Exists([i], z3.And(self.lo <= i, i < self.hi, V.type_of(e, it.ct) == V.type_of(self.value, it.ct),
                                     L.eq_term(self.value, e)))

    def on_return(self, it, ret):
        it.st.check("P1:Literal-accepts-only-listed-values-of-the-same-type(unchanged)", z3.And(self.member(it), ret == self.value))

    def on_raise(self, it, exc):
        it.st.check("P2:Literal-rejects-values-that-are-not-listed", z3.Not(self.member(it)))
        self.exception_ok(it, exc)


class _Container(_Val):
    """Shared checks for the element-wise container validators."""
    result_class = "tuple"

    def setup(self, it, env):
        st = it.st
        r = self.base_setup(it, env)
        self.f = st.fresh_val("element_validator")
        self.is_validator(it, self.f)
        env.vars["element_validator"] = self.f
        return r

    def shape(self, it):
        return seq_conf(it, self.value)

    def view(self, it):
        return lib.generic_seq_view(it, self.value)

    def conf(self, it):
        sv = self.view(it)
        if sv is None:
            return None
        arr, lo, hi = sv
        i = z3.Int("i!cf")
        return z3.And(self.shape(it), z3.ForAll([i], z3.Implies(z3.And(lo <= i, i < hi), v_ok(self.f, z3.Select(arr, i)))))

    def on_return(self, it, ret):
        st = it.st
        st.check("P1:accepted-values-have-the-right-container-shape", self.shape(it))
        comps = st.ghost.get("$comps", [])
        ok = len(comps) == 1
        st.check("P3:the-result-is-built-in-one-pass-over-the-items", z3.BoolVal(ok))
        if not ok:
            return
        c = comps[0]
        arr, lo, hi = c["src"]
        rv = lib.seq_view(it, ret)
        if rv is None:
            # not one of the containers the validator builds (e.g. the caller's own value handed back)
            st.check("C04-P2:the-result-is-an-immutable-container-that-is-a-new-object",
                     z3.And(V.is_ref(ret), V.class_of(V.addr(ret)) == it.ct.id(self.result_class), ret != self.value,
                            V.addr(ret) >= 1_000_000))
            return
        rarr, rlo, rhi = rv
        i = st.fresh("i", I)
        st.assume(z3.And(0 <= i, i < hi - lo))
        st.instantiate_at(st.simp(lo + i))
        st.check("P1:every-item-conforms", v_ok(self.f, z3.Select(arr, lo + i)))
        st.check("P3:same-number-of-items-nothing-added-or-dropped", rhi - rlo == hi - lo)
        st.check("P3:item-i-of-the-result-is-the-converted-item-i-of-the-input",
                 z3.Select(rarr, rlo + i) == v_res(self.f, z3.Select(arr, lo + i)))
        st.check("C04-P2:the-result-is-an-immutable-container-that-is-a-new-object",
                 z3.And(V.is_ref(ret), V.class_of(V.addr(ret)) == it.ct.id(self.result_class), ret != self.value,
                        V.addr(ret) >= 1_000_000))
        st.check("C04-P3:converting-an-already-converted-value-changes-no-item(idempotent)",
                 z3.Implies(v_res(self.f, z3.Select(arr, lo + i)) == z3.Select(arr, lo + i),
                            z3.Select(rarr, rlo + i) == z3.Select(arr, lo + i)))

    def on_raise(self, it, exc):
        st = it.st
        self.exception_ok(it, exc)
        j = st.ghost.get("$first_rejected")
        if j is None:
            st.check("P2:rejected-only-for-a-wrong-container-shape-or-a-non-conforming-item", z3.Not(self.shape(it)))
        else:
            sv = self.view(it)
            arr, lo, hi = sv
            st.check("P2:rejected-only-for-a-wrong-container-shape-or-a-non-conforming-item",
                     z3.And(lo <= j, j < hi, z3.Not(v_ok(self.f, z3.Select(arr, j)))))
            st.check("P2:the-error-is-the-item's-own-rejection", exc == v_exc(self.f, z3.Select(arr, j)))


class SequenceV(_Container):
    file, func, name = FILE, "_prepare_validator_of_sequence.validator", "C05/validation:sequence"


class TupleVarV(_Container):
    # the factory defines two closures named `validator`: #0 is the variadic branch, #1 the fixed one
    file, func, name = FILE, "_prepare_validator_of_tuple.validator#0", "C05/validation:tuple-variadic"


class SetV(_Container):
    file, func, name = FILE, "_prepare_validator_of_set.validator", "C05/validation:set"
    result_class = "frozenset"

    def shape(self, it):
        return V.subclass(V.type_of(self.value, it.ct), it.ct.id("Set"))

    def setup(self, it, env):
        st = it.st
        r = super().setup(it, env)
        # a collections.abc.Set value: either not a Set at all, or a set object with some iteration order
        if st.fork("value-kind", [("a-set", self.shape(it)), ("not-a-set", z3.Not(self.shape(it)))]) == 0:
            st.assume(z3.And(V.is_ref(self.value), V.addr(self.value) >= 0, V.addr(self.value) < 1_000_000))
            kind = st.fork("set-class", [("set", True), ("frozenset", True)])
            st.declare_class(self.value, ["set", "frozenset"][kind])
            st.assume(st.get(self.value, "$lo") <= st.get(self.value, "$hi"))
        return r


class MappingV(_Val):
    file, func, name = FILE, "_prepare_validator_of_mapping.validator", "C05/validation:mapping"

    def setup(self, it, env):
        st = it.st
        r = self.base_setup(it, env)
        self.fk, self.fv = st.fresh_val("key_validator"), st.fresh_val("value_validator")
        self.is_validator(it, self.fk)
        self.is_validator(it, self.fv)
        env.vars["key_validator"], env.vars["value_validator"] = self.fk, self.fv
        self.shape = V.subclass(V.type_of(self.value, it.ct), it.ct.id("Mapping"))
        if st.fork("value-kind", [("a-mapping", self.shape), ("not-a-mapping", z3.Not(self.shape))]) == 0:
            st.assume(z3.And(V.is_ref(self.value), V.addr(self.value) >= 0, V.addr(self.value) < 1_000_000))
            st.declare_class(self.value, "dict")
            p = dict_parts(it, self.value)
            st.assume(p["lo"] <= p["hi"])
            st.assume(QFact(lambda k: z3.Implies(z3.Select(p["has"], k),
                                                 z3.And(p["lo"] <= z3.Select(p["pos"], k), z3.Select(p["pos"], k) < p["hi"],
                                                        z3.Select(p["keys"], z3.Select(p["pos"], k)) == k)),
                            sort=Val, pattern=lambda k: z3.Select(p["has"], k), name="mw1"))
            st.assume(QFact(lambda i: z3.Implies(z3.And(p["lo"] <= i, i < p["hi"]),
                                                 z3.And(z3.Select(p["has"], z3.Select(p["keys"], i)),
                                                        z3.Select(p["pos"], z3.Select(p["keys"], i)) == i)),
                            pattern=lambda i: z3.Select(p["keys"], i), name="mw2"))
            self.p0 = p
            st.hints += [p["lo"] == 0, p["hi"] <= 2]
        return r

    def on_return(self, it, ret):
        st = it.st
        st.check("P1:accepted-values-are-mappings", self.shape)
        dcs = st.ghost.get("$dictcomps", [])
        ok = len(dcs) == 1 and hasattr(self, "p0")
        st.check("P3:the-result-is-built-in-one-pass-over-the-items", z3.BoolVal(ok))
        if not ok:
            return
        dc, p0 = dcs[0], self.p0
        arr, lo, hi = dc["src"]
        st.check("P3:one-result-entry-is-produced-per-input-entry", z3.And(hi - lo == p0["hi"] - p0["lo"]))
        i = st.fresh("i", I)
        st.assume(z3.And(lo <= i, i < hi))
        st.instantiate_at(i)
        key_i = z3.Select(p0["keys"], p0["lo"] + (i - lo))
        val_i = z3.Select(p0["val"], key_i)
        st.instantiate_at(st.simp(p0["lo"] + (i - lo)))
        st.check("P1:every-key-and-value-conforms", z3.And(v_ok(self.fk, key_i), v_ok(self.fv, val_i)))
        st.check("P3:entry-i-is-(converted-key-i,-converted-value-i)-nothing-split-or-re-keyed",
                 z3.And(dc["Ki"](i) == v_res(self.fk, key_i), dc["Vi"](i) == v_res(self.fv, val_i)))
        under = st.get(ret, "$mp_dict")
        st.check("C04-P2:the-result-is-a-read-only-view-of-a-new-dict-not-the-callers",
                 z3.And(V.is_ref(ret), V.class_of(V.addr(ret)) == it.ct.id("mappingproxy"), under == dc["result"],
                        under != self.value, V.addr(under) >= 1_000_000))

    def on_raise(self, it, exc):
        st = it.st
        self.exception_ok(it, exc)
        j = st.ghost.get("$first_rejected")
        if j is None or not hasattr(self, "p0"):
            st.check("P2:rejected-only-for-a-non-mapping-or-a-non-conforming-entry", z3.Not(self.shape))
            return
        p0 = self.p0
        dcs_src = None
        key_j = z3.Select(p0["keys"], j)
        st.instantiate_at(j)
        st.check("P2:rejected-only-for-a-non-mapping-or-a-non-conforming-entry",
                 z3.And(p0["lo"] <= j, j < p0["hi"],
                        z3.Or(z3.Not(v_ok(self.fk, key_j)), z3.Not(v_ok(self.fv, z3.Select(p0["val"], key_j))))))


class TupleFixedV(_Val):
    file, func, name = FILE, "_prepare_validator_of_tuple.validator#1", "C05/validation:tuple-fixed"

    def setup(self, it, env):
        st = it.st
        r = self.base_setup(it, env)
        self.evs, self.earr, self.elo, self.ehi = sym_seq(it, "element_validators", "list")
        x, k = z3.Const("x!tf", Val), z3.Int("k!tf")
        f = z3.Select(self.earr, k)
        e = v_exc(f, x)
        st.assume(z3.ForAll([k], z3.Implies(z3.And(self.elo <= k, k < self.ehi), V.is_fun(z3.Select(self.earr, k))),
                            patterns=[z3.Select(self.earr, k)]))
        st.assume(z3.ForAll([k, x], z3.Implies(z3.Not(v_ok(f, x)),
                                               z3.And(V.is_ref(e), V.addr(e) >= 2_000_000, V.addr(e) < 3_000_000,
                                                      V.subclass(V.class_of(V.addr(e)), it.ct.id("Exception")))),
                            patterns=[v_exc(f, x)]))
        env.vars["element_validators"] = self.evs
        self.n = st.simp(self.ehi - self.elo)
        env.vars["elements_count"] = V.VInt(self.n)
        st.hints += [self.n <= 2, self.elo == 0]
        return r

    def call_unknown(self, it, f, cargs, node):
        if len(cargs.pos) == 1 and not cargs.kw and cargs.star is None:
            x = cargs.pos[0]
            return it.call_pure(v_ok(f, x), v_res(f, x), v_exc(f, x), "validator")
        return None

    def on_return(self, it, ret):
        st = it.st
        st.check("P1:accepted-values-are-sequences(not-str/bytes)", seq_conf(it, self.value))
        arr, lo, hi = lib.generic_seq_view(it, self.value)
        st.check("P1:accepted-values-have-exactly-the-annotated-length", hi - lo == self.n)
        rv = lib.seq_view(it, ret)
        if rv is None:
            st.check("C04-P2:the-result-is-a-new-tuple", z3.And(V.is_tuple(ret) if hasattr(V, "is_tuple") else z3.BoolVal(False),
                                                               ret != self.value))
            return
        rarr, rlo, rhi = rv
        i = st.fresh("i", I)
        st.assume(z3.And(0 <= i, i < self.n))
        st.instantiate_at(st.simp(lo + i))
        fi = z3.Select(self.earr, self.elo + i)
        st.check("P1:item-i-conforms-to-annotation-i", v_ok(fi, z3.Select(arr, lo + i)))
        st.check("P3:same-length-and-item-i-is-converted-by-validator-i",
                 z3.And(rhi - rlo == self.n, z3.Select(rarr, rlo + i) == v_res(fi, z3.Select(arr, lo + i))))
        st.check("C04-P2:the-result-is-a-new-tuple",
                 z3.And(V.is_ref(ret), V.class_of(V.addr(ret)) == it.ct.id("tuple"), ret != self.value))

    def on_raise(self, it, exc):
        st = it.st
        self.exception_ok(it, exc)
        j = st.ghost.get("$first_rejected")
        sv = lib.generic_seq_view(it, self.value)
        if j is None:
            st.check("P2:rejected-only-for-a-non-sequence-or-a-wrong-length",
                     z3.Or(z3.Not(seq_conf(it, self.value)),
                           z3.BoolVal(True) if sv is None else (sv[2] - sv[1] != self.n)))
        else:
            arr, lo, hi = sv
            st.check("P2:rejected-because-item-j-does-not-conform-to-annotation-j",
                     z3.And(lo <= j, j < hi, z3.Not(v_ok(z3.Select(self.earr, self.elo + (j - lo)), z3.Select(arr, j)))))


class UnionV(_Val):
    file, func, name = FILE, "_prepare_validator_of_union.validator", "C05/validation:union"

    def setup(self, it, env):
        st = it.st
        r = self.base_setup(it, env)
        self.vs, self.varr, self.vlo, self.vhi = sym_seq(it, "validators", "list")
        x, k = z3.Const("x!u", Val), z3.Int("k!u")
        f = z3.Select(self.varr, k)
        e = v_exc(f, x)
        st.assume(z3.ForAll([k, x], z3.Implies(z3.Not(v_ok(f, x)),
                                               z3.And(V.is_ref(e), V.addr(e) >= 2_000_000, V.addr(e) < 3_000_000,
                                                      V.subclass(V.class_of(V.addr(e)), it.ct.id("Exception")))),
                            patterns=[v_exc(f, x)]))
        env.vars["validators"] = self.vs
        st.hints += [self.vhi - self.vlo <= 2, self.vlo == 0]
        return r

    def call_unknown(self, it, f, cargs, node):
        if len(cargs.pos) == 1 and not cargs.kw and cargs.star is None:
            x = cargs.pos[0]
            return it.call_pure(v_ok(f, x), v_res(f, x), v_exc(f, x), "alternative")
        return None

    def loop_spec(self, it, node, env):
        if not isinstance(node, ast.For):
            return None

        def inv(it2, env2, k):
            j = z3.Int("j!ui")
            errs = env2.lookup("errors")
            cur = (it2.st.get(self.vs, "$arr"), it2.st.get(self.vs, "$lo"), it2.st.get(self.vs, "$hi"))
            return [("the-alternatives-are-not-modified", z3.And(cur[0] == self.varr, cur[1] == self.vlo, cur[2] == self.vhi)),
                    ("earlier-alternatives-all-rejected-the-value",
                     z3.ForAll([j], z3.Implies(z3.And(self.vlo <= j, j < k), z3.Not(v_ok(z3.Select(self.varr, j), self.value))))),
                    ("errors-is-a-list", z3.And(V.is_ref(errs), V.class_of(V.addr(errs)) == it2.ct.id("list")))]

        def on_exit(it2, env2, k):
            self.exit_k = k
        return dict(name="alternatives-loop", inv=inv, exit=on_exit, havoc_containers=True)

    def alternatives_untouched(self, it):
        st = it.st
        cur = (st.get(self.vs, "$arr"), st.get(self.vs, "$lo"), st.get(self.vs, "$hi"))
        j = z3.Int("j!un")
        return z3.And(cur[1] == self.vlo, cur[2] == self.vhi,
                      z3.ForAll([j], z3.Implies(z3.And(self.vlo <= j, j < self.vhi), z3.Select(cur[0], j) == z3.Select(self.varr, j))))

    def on_return(self, it, ret):
        st = it.st
        st.check("C04-P7:validating-a-value-never-changes-the-alternatives(the-outcome-depends-on-the-value-alone,-not-on-earlier-values)",
                 self.alternatives_untouched(it))
        k = st.fresh("k", I)
        # the loop body returned at some alternative k (the havocked loop index of the arbitrary iteration)
        j = z3.Int("j!ur")
        st.check("P1:a-union-accepts-when-some-alternative-does-and-converts-with-the-first-such",
                 z3.Exists([j], z3.And(self.vlo <= j, j < self.vhi, v_ok(z3.Select(self.varr, j), self.value),
                                       ret == v_res(z3.Select(self.varr, j), self.value),
                                       z3.ForAll([k], z3.Implies(z3.And(self.vlo <= k, k < j),
                                                                 z3.Not(v_ok(z3.Select(self.varr, k), self.value)))))))

    def on_raise(self, it, exc):
        st = it.st
        self.exception_ok(it, exc)
        st.check("C04-P7:validating-a-value-never-changes-the-alternatives(the-outcome-depends-on-the-value-alone,-not-on-earlier-values)",
                 self.alternatives_untouched(it))
        j = z3.Int("j!ux")
        st.check("P2:a-union-rejects-only-when-every-alternative-does",
                 z3.ForAll([j], z3.Implies(z3.And(self.vlo <= j, j < self.vhi), z3.Not(v_ok(z3.Select(self.varr, j), self.value)))))


CONTRACTS = [AnyV(), NoneV(), TypeV(), CallableV(), LiteralV(), SequenceV(), TupleVarV(), TupleFixedV(), SetV(), MappingV(),
             UnionV()]


# ------------------------------------------------------------------------------------------------
# dispatch: which conversion is chosen for which annotation origin
# ------------------------------------------------------------------------------------------------
EXPECTED_SHAPE = {
    "Any": "any", "NoneType": "none", "Missing": "missing", "type": "type", "bool": "type", "int": "type",
    "float": "type", "complex": "type", "bytes": "type", "str": "type", "tuple": "tuple", "frozenset": "set",
    "Literal": "literal", "Set": "set", "Sequence": "sequence", "Mapping": "mapping", "range": "type", "UUID": "type",
    "date": "type", "datetime": "type", "time": "type", "timedelta": "type", "timezone": "type", "Path": "type",
    "Pattern": "type", "Union": "union", "UnionType": "union", "Callable": "callable",
}


class Dispatch(_Val):
    file, func, name = FILE, "attribute_validator", "C05/validation:attribute_validator(dispatch)"

    def hasattr_(self, it, obj, name, node):
        nm = L._literal_str(it, name)
        if nm == "__IMMUTABLE__":
            return V.VBool(z3.BoolVal(self.kind == "state"))
        return None

    def run(self, it):
        st = it.st
        st.contract = self
        node, mod, chain = it.engine.repo.find(self.file, self.func)
        names = sorted(EXPECTED_SHAPE) + ["<state>", "<protocol>", "<enum>", "<unsupported>"]
        which = st.fork("origin", [(n, True) for n in names])
        oname = names[which]
        ainfo = repo_class(it, "state/attributes.py", "AttributeAnnotation")
        any_v = it.module_symbol(mod, "Any")
        leaf = it.instantiate(ainfo.cid, CallArgs(kw={"origin": any_v, "arguments": lib.new_list(it, [])}))
        self.kind = "plain"
        if oname.startswith("<"):
            self.kind = oname.strip("<>")
            c = st.fresh("user_class", I)
            st.assume(z3.Or(c < 0, c >= len(it.ct.names)))
            origin = V.VCls(c)
            if self.kind == "protocol":
                st.assume(V.subclass(c, it.ct.id("Protocol")))
            else:
                st.assume(z3.Not(V.subclass(c, it.ct.id("Protocol"))))
            if self.kind == "enum":
                st.assume(V.subclass(c, it.ct.id("Enum")))
            elif self.kind != "protocol":
                st.assume(z3.Not(V.subclass(c, it.ct.id("Enum"))))
        else:
            try:
                origin = it.lookup(oname, Env(mod))
            except Exception:
                st.check(f"P0:the-annotation-vocabulary-knows-{oname}", z3.BoolVal(False))
                return
        args = lib.new_list(it, [leaf, leaf])
        if oname == "tuple":
            args = lib.new_list(it, [leaf, leaf])
        ann = it.instantiate(ainfo.cid, CallArgs(kw={"origin": origin, "arguments": args}))
        f = st.fun_of(it.module_symbol(mod, "attribute_validator"))
        try:
            ret = it.call_function(f, CallArgs([ann]))
        except PyRaise as pr:
            st.check("P0:only-unsupported-annotations-are-refused(with-TypeError)",
                     z3.And(z3.BoolVal(self.kind == "unsupported"), is_exc(it, pr.val, "TypeError")))
            st.check("canary", z3.BoolVal(False), kind="canary")
            return
        fv = st.fun_of(ret)
        shape = None
        if isinstance(fv, FuncV):
            for s_ in mod.tree.body:
                if isinstance(s_, ast.FunctionDef) and s_.name.startswith("_prepare_validator_of_") and \
                        any(n is fv.node for n in ast.walk(s_)):
                    shape = s_.name[len("_prepare_validator_of_"):]
        want = EXPECTED_SHAPE.get(oname, "type" if self.kind in ("state", "protocol", "enum") else None)
        st.check(f"P0:annotation-{oname}-is-checked-by-the-{want}-conversion", z3.BoolVal(shape == want and want is not None))
        st.check("canary", z3.BoolVal(False), kind="canary")


CONTRACTS = CONTRACTS + [Dispatch()]


# ------------------------------------------------------------------------------------------------
# StateAttribute.validated and State.__init__
# ------------------------------------------------------------------------------------------------
STRUCT = "state/structure.py"


class _Struct(_Val):
    def missing(self, it):
        g = it.st.ghost
        if "MISSING" not in g:
            info = repo_class(it, "types/missing.py", "Missing")
            g["MISSING"] = it.st.sym_ref("MISSING", info.cid)
        return g["MISSING"]

    def global_value(self, it, mod, name):
        if name == "MISSING":
            return self.missing(it)
        return None


class Validated(_Struct):
    file, func, name = STRUCT, "StateAttribute.validated", "C05/structure:StateAttribute.validated"

    def setup(self, it, env):
        st = it.st
        info = repo_class(it, STRUCT, "StateAttribute")
        self.obj = st.sym_ref("attribute", info.cid)
        self.f = st.get(self.obj, "validator")
        self.is_validator(it, self.f)
        self.default = st.get(self.obj, "default")
        self.value = st.fresh_val("value")
        return method(it, info, self.obj, "validated"), CallArgs([self.value])

    def effective(self, it):
        return z3.If(self.value == self.missing(it), self.default, self.value)

    def on_return(self, it, ret):
        x = self.effective(it)
        it.st.check("P1:the-supplied-value-(or-the-default-when-MISSING)-is-converted-by-the-attribute's-validator",
                    z3.And(v_ok(self.f, x), ret == v_res(self.f, x)))

    def on_raise(self, it, exc):
        x = self.effective(it)
        it.st.check("P2:fails-exactly-when-that-value-does-not-conform", z3.And(z3.Not(v_ok(self.f, x)), exc == v_exc(self.f, x)))


class StateInit(_Struct):
    file, func, name = STRUCT, "State.__init__", "C05/structure:State.__init__"
    bmv = z3.Function("C05.bound_validated", Val, Val)

    def attr(self, it, obj, name, node):
        if name == "validated":
            return self.bmv(obj)
        if name == "__ATTRIBUTES__":
            return self.attrs
        return None

    def call_unknown(self, it, f, cargs, node):
        t = it.st.simp(f)
        if z3.is_app(t) and t.decl().name() == "C05.bound_validated":
            a = t.arg(0)
            x = z3.If(cargs.pos[0] == self.missing(it), self.dflt(a), cargs.pos[0])
            fa = self.vald(a)
            lib.used("callee:StateAttribute.validated (its own contract)")
            return it.call_pure(v_ok(fa, x), v_res(fa, x), v_exc(fa, x), "attribute")
        return None

    def setup(self, it, env):
        st = it.st
        sinfo = repo_class(it, STRUCT, "State")
        c = st.fresh("state_class", I)
        st.assume(z3.Or(c < 0, c >= 10_000))
        self.obj = st.sym_ref("self", sinfo.cid)      # an instance of (a subclass of) State under construction
        # __ATTRIBUTES__: name -> StateAttribute (a class-level dict of unknown size)
        self.attrs = st.sym_ref("__ATTRIBUTES__", "dict")
        p = dict_parts(it, self.attrs)
        st.assume(p["lo"] <= p["hi"])
        self.p = p
        st.ghost["$clsvar:State.__ATTRIBUTES__"] = self.attrs
        self.dflt = lambda a: z3.Select(st.field_array("default"), V.addr(a))
        self.vald = lambda a: z3.Select(st.field_array("validator"), V.addr(a))
        x, a = z3.Const("x!si", Val), z3.Const("a!si", Val)
        e = v_exc(self.vald(a), x)
        st.assume(z3.ForAll([a, x], z3.Implies(z3.Not(v_ok(self.vald(a), x)),
                                               z3.And(V.is_ref(e), V.addr(e) >= 2_000_000, V.addr(e) < 3_000_000,
                                                      V.subclass(V.class_of(V.addr(e)), it.ct.id("Exception")))),
                            patterns=[v_exc(self.vald(a), x)]))
        # attribute names are distinct keys of the dict (well-formedness)
        st.assume(QFact(lambda i: z3.Implies(z3.And(p["lo"] <= i, i < p["hi"]),
                                             z3.And(z3.Select(p["has"], z3.Select(p["keys"], i)),
                                                    V.is_str(z3.Select(p["keys"], i)),      # names of annotations
                                                    z3.Select(p["pos"], z3.Select(p["keys"], i)) == i)),
                        pattern=lambda i: z3.Select(p["keys"], i), name="aw"))
        self.kwargs = st.sym_ref("kwargs", "dict")
        self.kp = dict_parts(it, self.kwargs)
        self.sh0, self.sv0 = st.get(self.obj, "$sattr_has"), st.get(self.obj, "$sattr_val")
        st.hints += [p["lo"] == 0, p["hi"] <= 2]
        return method(it, sinfo, self.obj, "__init__"), CallArgs(starstar=self.kwargs)

    def class_var(self, it, info, name):
        if name == "__ATTRIBUTES__":
            return self.attrs
        return None

    def expected(self, it, i):
        p, kp = self.p, self.kp
        name = z3.Select(p["keys"], i)
        a = z3.Select(p["val"], name)
        given = z3.If(z3.Select(kp["has"], name), z3.Select(kp["val"], name), self.missing(it))
        x = z3.If(given == self.missing(it), self.dflt(a), given)
        return name, a, x

    def loop_spec(self, it, node, env):
        if not isinstance(node, ast.For):
            return None
        st = it.st
        p = self.p

        def inv(it2, env2, k):
            sv, sh = it2.st.get(self.obj, "$sattr_val"), it2.st.get(self.obj, "$sattr_has")
            out = [("attributes-processed-so-far-hold-their-validated-values",
                    QFact(lambda j: z3.Implies(z3.And(p["lo"] <= j, j < k),
                                               z3.And(v_ok(self.vald(self.expected(it2, j)[1]), self.expected(it2, j)[2]),
                                                      z3.Select(sh, self.expected(it2, j)[0]),
                                                      z3.Select(sv, self.expected(it2, j)[0]) ==
                                                      v_res(self.vald(self.expected(it2, j)[1]), self.expected(it2, j)[2]))),
                          name="si"))]
            return out

        def on_exit(it2, env2, k):
            self.k_exit = k
        return dict(name="attributes-loop", inv=inv, exit=on_exit, havoc_fields=("$sattr_has", "$sattr_val"))

    def on_return(self, it, ret):
        st = it.st
        p = self.p
        i = st.fresh("i", I)
        st.assume(z3.And(p["lo"] <= i, i < p["hi"]))
        st.instantiate_at(i)
        name, a, x = self.expected(it, i)
        sv, sh = st.get(self.obj, "$sattr_val"), st.get(self.obj, "$sattr_has")
        st.check("P1:every-attribute-holds-validator(argument-if-supplied-and-not-MISSING-else-default)",
                 z3.And(z3.Select(sh, name), z3.Select(sv, name) == v_res(self.vald(a), x)))
        st.check("P1:construction-succeeds-only-when-every-such-value-conforms", v_ok(self.vald(a), x))

    def on_raise(self, it, exc):
        st = it.st
        self.exception_ok(it, exc)
        # the failing attribute is the one of the arbitrary loop iteration that raised
        st.check("P2:construction-fails-only-with-the-rejection-of-some-attribute-value",
                 z3.BoolVal(any(l.startswith("attribute:accepts:F") for l in st.labels)))


CONTRACTS = CONTRACTS + [Validated(), StateInit()]


class DispatchTwice(_Val):
    """attribute_validator is a function of its argument alone: two consecutive calls with two
    different annotations of the same shape each get a validator built from *their own* annotation
    (no state shared between calls can make one annotation borrow another's validator)."""
    file, func, name = FILE, "attribute_validator", "C05/validation:attribute_validator(independent-calls)"

    def hasattr_(self, it, obj, name, node):
        return V.VBool(z3.BoolVal(False))

    def run(self, it):
        st = it.st
        st.contract = self
        node, mod, chain = it.engine.repo.find(self.file, self.func)
        ainfo = repo_class(it, "state/attributes.py", "AttributeAnnotation")
        shape = st.fork("shape", [("Literal", True), ("Sequence", True), ("class", True)])
        f = st.fun_of(it.module_symbol(mod, "attribute_validator"))
        rets, anns = [], []
        for k in (1, 2):
            if shape == 0:
                origin = it.lookup("Literal", Env(mod))
                args = st.sym_ref(f"literal_values{k}", "list")
                st.assume(st.get(args, "$lo") <= st.get(args, "$hi"))
            elif shape == 1:
                origin = it.lookup("Sequence", Env(mod))
                inner_origin = V.VCls(st.fresh(f"item_class{k}", I))
                st.assume(z3.Or(V.cid(inner_origin) < 0, V.cid(inner_origin) >= len(it.ct.names)))
                st.assume(V.subclass(V.cid(inner_origin), it.ct.id("Enum")))
                inner = it.instantiate(ainfo.cid, CallArgs(kw={"origin": inner_origin, "arguments": lib.new_list(it, [])}))
                args = lib.new_list(it, [inner])
                self_inner = inner_origin
            else:
                origin = V.VCls(st.fresh(f"user_class{k}", I))
                st.assume(z3.Or(V.cid(origin) < 0, V.cid(origin) >= len(it.ct.names)))
                st.assume(V.subclass(V.cid(origin), it.ct.id("Enum")))
                args = lib.new_list(it, [])
            ann = it.instantiate(ainfo.cid, CallArgs(kw={"origin": origin, "arguments": args}))
            anns.append((origin, args, locals().get("self_inner")))
            try:
                rets.append(it.call_function(f, CallArgs([ann])))
            except PyRaise:
                st.check("P0:supported-annotations-are-never-refused", z3.BoolVal(False))
                return
        fv2 = st.fun_of(rets[1])
        ok = isinstance(fv2, FuncV)
        st.check("P0:a-validator-closure-is-returned", z3.BoolVal(bool(ok)))
        if not ok:
            return
        origin2, args2, inner2 = anns[1]
        if shape == 0:
            got = fv2.env.lookup("elements")
            st.check("P0:the-second-annotation-is-checked-against-its-own-literal-values",
                     z3.BoolVal(got is not None) if got is None else got == args2)
        elif shape == 1:
            ev = fv2.env.lookup("element_validator")
            fe = st.fun_of(ev) if ev is not None else None
            got = fe.env.lookup("validated_type") if isinstance(fe, FuncV) else None
            st.check("P0:the-second-annotation's-items-are-checked-against-its-own-item-type",
                     z3.BoolVal(got is not None) if got is None else got == inner2)
        else:
            got = fv2.env.lookup("validated_type")
            st.check("P0:the-second-annotation-is-checked-against-its-own-class",
                     z3.BoolVal(got is not None) if got is None else got == origin2)
        st.check("canary", z3.BoolVal(False), kind="canary")


CONTRACTS = CONTRACTS + [DispatchTwice()]


def extra_contracts():
    """"each supplied or defaulted value conforms": the Missing alternative recognises the missing value by identity, so every
    way of obtaining it - the constant, `Missing()` - must give the one object: C20's contract of the metaclass call."""
    from .C02 import variant
    from .C20 import MetaCall
    return [variant(MetaCall, "C05", ("",))]
