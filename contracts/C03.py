"""C03 - tasks inherit a context snapshot and never observe each other's scopes.

With T-CV (a task runs in its own copy of the context; bindings made in one context are invisible in
every other) a task's visible state is a function of (snapshot at creation, its own set/reset
history) - unless tasks share *mutable heap objects* reachable from the context.  Proved here:
  C03-P1  both create_task calls of TaskGroupContext.run (and ctx.spawn) pass context=copy_context()
          evaluated at the spawn point (C06.Run scenario);
  C03-P2  frame audit over context/state.py: the only stores are to fields of the object under
          construction, the per-block token of StateContext, and ContextVar.set/reset; nothing ever
          mutates a ScopeState (or its dict) after construction; the lookup/updated contracts of C01
          prove the same semantically (C01-P3f, C01-P2 frame clauses, reported here too);
  C03-P3  ScopeState.updated returns a new object, or the receiver unchanged when nothing is added.
The schedule quantifier of the statement is discharged by T-CV, not by this proof.
"""
from __future__ import annotations

import ast

import z3

from .common import *
from .C01 import Lookup, Updated
from .C02 import variant
from .C06 import Run, Spawn

MUTATORS = {"append", "appendleft", "popleft", "pop", "extend", "clear", "move_to_end", "popitem", "update", "add",
            "remove", "discard", "setdefault", "insert", "__setitem__", "__delitem__"}
ALLOWED = {("ScopeState", "__init__", "_state"), ("StateContext", "__init__", "_state"),
           ("StateContext", "__init__", "_token"), ("StateContext", "__enter__", "_token"),
           ("StateContext", "__exit__", "_token")}


class FrameAudit(Lemma):
    file, func, name = "context/state.py", "ScopeState", "C03/state:frame-audit(context/state.py)"
    props = ("C03",)
    trusted = ("T-CV: contexts are task-local; a Task runs in the copy it was given",)

    def prove(self, it):
        mod = it.engine.repo.module_for_file(self.file)
        bad, cv_ops = [], []
        for cls in [n for n in mod.tree.body if isinstance(n, ast.ClassDef)]:
            for fn in [n for n in cls.body if isinstance(n, (ast.FunctionDef, ast.AsyncFunctionDef))]:
                selfname = (fn.args.posonlyargs + fn.args.args)[0].arg if (fn.args.posonlyargs + fn.args.args) else None
                # locals that only ever name an object created in this very call (a fresh display / comprehension / dict() /
                # list() ...): filling them is construction, not mutation of something another task can see
                fresh_kinds = (ast.Dict, ast.List, ast.Set, ast.DictComp, ast.ListComp, ast.SetComp)
                assigned = {}
                for n in ast.walk(fn):
                    tgt, val = None, None
                    if isinstance(n, ast.Assign) and len(n.targets) == 1 and isinstance(n.targets[0], ast.Name):
                        tgt, val = n.targets[0].id, n.value
                    elif isinstance(n, ast.AnnAssign) and isinstance(n.target, ast.Name) and n.value is not None:
                        tgt, val = n.target.id, n.value
                    if tgt is not None:
                        is_fresh = isinstance(val, fresh_kinds) or (isinstance(val, ast.Call) and isinstance(val.func, ast.Name)
                                                                    and val.func.id in ("dict", "list", "set") )
                        assigned.setdefault(tgt, []).append(is_fresh)
                params = {a.arg for a in fn.args.posonlyargs + fn.args.args + fn.args.kwonlyargs}
                fresh_locals = {k for k, v in assigned.items() if all(v) and k not in params}
                is_fresh_local = lambda e: isinstance(e, ast.Name) and e.id in fresh_locals      # noqa: E731
                for n in ast.walk(fn):
                    if isinstance(n, ast.Attribute) and isinstance(n.ctx, (ast.Store, ast.Del)):
                        own = isinstance(n.value, ast.Name) and n.value.id == selfname
                        if not (own and (cls.name, fn.name, n.attr) in ALLOWED):
                            bad.append(f"{cls.name}.{fn.name}: store to .{n.attr}")
                    elif isinstance(n, ast.Subscript) and isinstance(n.ctx, (ast.Store, ast.Del)):
                        if not is_fresh_local(n.value):
                            bad.append(f"{cls.name}.{fn.name}: item store/delete on {ast.unparse(n.value)}")
                    elif isinstance(n, ast.Call) and isinstance(n.func, ast.Attribute):
                        if n.func.attr in MUTATORS and not is_fresh_local(n.func.value):
                            bad.append(f"{cls.name}.{fn.name}: mutating call .{n.func.attr}()")
                        if n.func.attr in ("set", "reset"):
                            cv_ops.append((cls.name, fn.name, n.func.attr))
                    elif isinstance(n, (ast.Global, ast.Nonlocal)):
                        bad.append(f"{cls.name}.{fn.name}: global/nonlocal")
        toplevel = [n for n in mod.tree.body if isinstance(n, (ast.Assign, ast.AnnAssign, ast.AugAssign))
                    and not (isinstance(n, ast.Assign) and all(isinstance(t, ast.Name) and t.id == "__all__" for t in n.targets))]
        it.st.check("C03-P2:no-function-mutates-shared-state-objects-after-construction", z3.BoolVal(not bad),
                    kind="frame", note="; ".join(bad))
        it.st.check("C03-P2:no-module-level-mutable-state", z3.BoolVal(not toplevel), kind="frame")
        it.st.check("C03-P2:context-changes-are-only-ContextVar.set/reset-in-enter/exit",
                    z3.BoolVal(sorted(cv_ops) == [("StateContext", "__enter__", "set"), ("StateContext", "__exit__", "reset")]),
                    kind="frame", note=str(cv_ops))


P = ("C03-", "C01-P3f", "C01-P2:the-receiver")
# a scope object handed to another task extends the state of the task that *enters* it, never of the one that made it
from .C02 import AsyncScope as _AsyncScope, SyncScope as _SyncScope, StateBlock as _StateBlock      # noqa: E402

# ... and a block restores, on every way out, exactly the state the *entering* task had before it ("plus whatever scopes it enters
# itself, for its whole life")
_c03 = lambda n: n.startswith("C01-P6") or "StateContext-variable-is-what-it-was" in n      # noqa: E731

# "sees ... the state that was visible where it was started plus whatever scopes it enters itself": *what* a task sees in the
# scope state it holds is decided by the three functions of ScopeState - all of their clauses carry C03 (a seed that keyed the
# dict by class name instead of class kept every isolation clause true and still showed a task another type's instance)
from .C01 import Init as _Init      # noqa: E402
ALL = ("",)
CONTRACTS = [FrameAudit(), variant(Run, "C03", P), variant(Spawn, "C03", P), variant(Lookup, "C03", ALL), variant(Updated, "C03", ALL),
             variant(_Init, "C03", ALL),
             variant(_AsyncScope, "C03", _c03), variant(_SyncScope, "C03", _c03), variant(_StateBlock, "C03", _c03)]
