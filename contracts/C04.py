"""C04 - State instances are immutable values with copy-on-update semantics.

Functions under contract: state/structure.py::State.__setattr__/__delattr__/__eq__/__replace__/
updated/__copy__/__deepcopy__/as_dict; the conversion clauses C04-P2 (containers become new
immutable objects that share nothing with the caller's) and C04-P3 (idempotence) are obligations of
the validator contracts in C05.py and are reported here as well.

Instance attributes are a map name -> value ($sattr), so one proof covers every state class;
__ATTRIBUTES__ is a dict of unknown size.  The validating constructor is used through its own
contract (C05: State.__init__).
Exempt by statement: attributes annotated Any / Callable / Protocol keep user objects by reference.
"""
from __future__ import annotations

import ast

import z3

from .common import *
from .C05 import _Struct, v_ok, v_res, v_exc, SequenceV, TupleVarV, TupleFixedV, SetV, MappingV, UnionV, Validated
from .C02 import variant
from pyvc.lib import dict_parts
from pyvc.state import QFact
from pyvc import lib as L

STRUCT = "state/structure.py"


class _St(_Struct):
    props = ("C04",)
    trusted = ("S8", "T-COPY", "T-COLL", "S6")
    assumptions = ("the validating constructor is used through its contract (C05/structure:State.__init__)",)

    def mk_state(self, it, name="self"):
        st = it.st
        sinfo = repo_class(it, STRUCT, "State")
        self.sinfo = sinfo
        o = st.sym_ref(name, sinfo.cid)
        return o

    def attrs_dict(self, it):
        st = it.st
        if not hasattr(self, "attrs"):
            self.attrs = st.sym_ref("__ATTRIBUTES__", "dict")
            p = dict_parts(it, self.attrs)
            st.assume(p["lo"] <= p["hi"])
            self.ap = p
        return self.attrs

    def attr(self, it, obj, name, node):
        if name == "__ATTRIBUTES__":
            return self.attrs_dict(it)
        if name == "__class__":
            return V.VCls(V.type_of(obj, it.ct))
        return None

    def getattr_default(self, it, obj, name, default, node):
        return None

    def sattr(self, it, obj, key):
        st = it.st
        return z3.Select(st.get(obj, "$sattr_has"), key), z3.Select(st.get(obj, "$sattr_val"), key)


class SetAttr(_St):
    file, func, name = STRUCT, "State.__setattr__", "C04/structure:State.__setattr__"

    def setup(self, it, env):
        st = it.st
        self.obj = self.mk_state(it)
        self.h0 = st.snapshot_heap()
        return method(it, self.sinfo, self.obj, "__setattr__"), CallArgs([V.VStr(st.fresh("name", I)), st.fresh_val("value")])

    def on_return(self, it, ret):
        it.st.check("P1:assigning-an-attribute-is-rejected", z3.BoolVal(False))

    def on_raise(self, it, exc):
        st = it.st
        st.check("P1:rejected-with-AttributeError", is_exc(it, exc, "AttributeError"))
        st.check("P1:nothing-is-stored", z3.BoolVal(all(st.heap[k].eq(self.h0.get(k, st.heap0.get(k))) for k in st.heap
                                                        if k.startswith("$sattr"))))


class DelAttr(SetAttr):
    file, func, name = STRUCT, "State.__delattr__", "C04/structure:State.__delattr__"

    def setup(self, it, env):
        st = it.st
        self.obj = self.mk_state(it)
        self.h0 = st.snapshot_heap()
        return method(it, self.sinfo, self.obj, "__delattr__"), CallArgs([V.VStr(st.fresh("name", I))])


class Eq(_St):
    file, func, name = STRUCT, "State.__eq__", "C04/structure:State.__eq__"

    def getattr_default(self, it, obj, name, default, node):
        st = it.st
        if it.kind(obj) == "ref" or st.entails(V.is_ref(obj)):
            has, val = self.sattr(it, obj, name)
            return z3.If(has, val, default)
        return None

    def setup(self, it, env):
        st = it.st
        self.obj = self.mk_state(it)
        self.other = st.fresh_val("other")
        st.assume(z3.Implies(V.is_ref(self.other), z3.And(V.addr(self.other) >= 0, V.addr(self.other) < 1_000_000)))
        self.attrs_dict(it)
        return method(it, self.sinfo, self.obj, "__eq__"), CallArgs([self.other])

    def on_return(self, it, ret):
        st = it.st
        p = self.ap
        M = self.missing(it)
        i = z3.Int("i!eq")
        key = z3.Select(p["keys"], i)
        same_class = V.subclass(V.type_of(self.other, it.ct), V.type_of(self.obj, it.ct))
        ha, va = self.sattr(it, self.obj, key)
        hb, vb = self.sattr(it, self.other, key)
        a, b = z3.If(ha, va, M), z3.If(hb, vb, M)
        alleq = z3.ForAll([i], z3.Implies(z3.And(p["lo"] <= i, i < p["hi"]), L.eq_term(a, b)))
        st.check("P6:equal-exactly-when-the-other-is-of-the-same-class-(or-a-subclass)-and-all-attributes-are-equal",
                 it.truthy(ret) == z3.And(same_class, z3.If(V.is_ref(self.other), alleq, z3.BoolVal(True))))

    def on_raise(self, it, exc):
        it.st.check("P6:comparing-never-raises", z3.BoolVal(False))


class _Rebuild(_St):
    """Methods that rebuild an instance through the validating constructor."""
    meth = ""

    def instantiate(self, it, info, cargs, node):
        # self.__class__(**kwargs): the validating constructor, used through its contract
        st = it.st
        if info.name == "State":
            self.ctor_calls.append(cargs)
            lib.used("callee:State.__init__ (C05)")
            if st.fork("constructor", [("constructs", True), ("rejects-a-value", True)]) == 0:
                self.result = st.sym_ref("rebuilt", self.sinfo.cid) if False else st.alloc(self.sinfo.cid)
                return self.result
            e = it.fresh_exception("ctor.exc")
            self.ctor_exc = e
            raise PyRaise(e, "validation failed")
        return None

    def dict_display(self, it, segs):
        """{**a, **b}: a new dict; b's entries override a's (T-COLL)."""
        st = it.st
        if not all(k == "star" for k, _ in segs):
            return None
        d = st.alloc("dict")
        has, val = None, None
        for _, m in segs:
            p = dict_parts(it, m)
            if has is None:
                has, val = p["has"], p["val"]
            else:
                k = z3.Const("k!dd", Val)
                has = z3.Lambda([k], z3.Or(z3.Select(has, k), z3.Select(p["has"], k)))
                val = z3.Lambda([k], z3.If(z3.Select(p["has"], k), z3.Select(p["val"], k), z3.Select(val, k)))
        st.put(d, "$dhas", has)
        st.put(d, "$dval", val)
        st.put(d, "$arr", st.fresh("dd_keys", V.ArrIV))
        st.put(d, "$dpos", st.fresh("dd_pos", V.ArrVI))
        st.put(d, "$lo", z3.IntVal(0))
        n = st.fresh("dd_n", I)
        st.assume(n >= 0)
        st.put(d, "$hi", n)
        return d

    def base(self, it):
        st = it.st
        self.obj = self.mk_state(it)
        self.attrs_dict(it)
        self.ctor_calls, self.result, self.ctor_exc = [], None, None
        self.h0 = st.snapshot_heap()
        self.sh0, self.sv0 = st.get(self.obj, "$sattr_has"), st.get(self.obj, "$sattr_val")

    def untouched(self, it):
        st = it.st
        return z3.And(st.get(self.obj, "$sattr_has") == self.sh0, st.get(self.obj, "$sattr_val") == self.sv0)

    def passed(self, it):
        """(has, val) of the keyword arguments handed to the constructor."""
        ok = len(self.ctor_calls) == 1 and self.ctor_calls[0].starstar is not None and not self.ctor_calls[0].pos \
            and not self.ctor_calls[0].kw
        if not ok:
            return None
        p = dict_parts(it, self.ctor_calls[0].starstar)
        return p["has"], p["val"]


class Replace(_Rebuild):
    file, func, name = STRUCT, "State.__replace__", "C04/structure:State.__replace__"
    entry = "__replace__"

    def setup(self, it, env):
        st = it.st
        self.base(it)
        self.kwargs = st.sym_ref("kwargs", "dict")
        self.kp = kp = dict_parts(it, self.kwargs)
        # the keyword dict is a well-formed dict
        st.assume(kp["lo"] <= kp["hi"])
        st.assume(QFact(lambda k: z3.Implies(z3.Select(kp["has"], k),
                                             z3.And(kp["lo"] <= z3.Select(kp["pos"], k), z3.Select(kp["pos"], k) < kp["hi"],
                                                    z3.Select(kp["keys"], z3.Select(kp["pos"], k)) == k)),
                        sort=Val, pattern=lambda k: z3.Select(kp["has"], k), name="kw1"))
        st.assume(QFact(lambda i: z3.Implies(z3.And(kp["lo"] <= i, i < kp["hi"]),
                                             z3.And(z3.Select(kp["has"], z3.Select(kp["keys"], i)),
                                                    z3.Select(kp["pos"], z3.Select(kp["keys"], i)) == i)),
                        pattern=lambda i: z3.Select(kp["keys"], i), name="kw2"))
        return method(it, self.sinfo, self.obj, self.entry), CallArgs(starstar=self.kwargs)

    def on_return(self, it, ret):
        st = it.st
        pv = self.passed(it)
        k = st.fresh_val("name")
        st.instantiate_at(k)
        for dcx in st.ghost.get("$dictcomps", []):
            st.instantiate_at(st.simp(z3.Select(dcx["last"], k)))
        st.instantiate_at(st.simp(z3.Select(self.kp["pos"], k)))
        if pv is None and not self.ctor_calls:
            # no rebuild at all: acceptable exactly when the instance itself is handed back and every named
            # attribute already holds *that very value* (same type included) - re-validation of a stored value
            # is the identity (C04-P3), so the observable result equals the rebuilt copy.  Python-level `==`
            # is not enough: 1 == 1.0 == True.
            st.check("P4:the-instance-itself-is-returned-only-when-every-named-attribute-already-holds-exactly-the-given-value",
                     z3.And(ret == self.obj, self.untouched(it),
                            z3.Implies(z3.And(z3.Select(self.kp["has"], k), z3.Select(self.ap["has"], k)),
                                       z3.And(z3.Select(self.sh0, k), z3.Select(self.kp["val"], k) == z3.Select(self.sv0, k)))))
            return
        st.check("P4:the-copy-is-rebuilt-once-through-the-validating-constructor", z3.BoolVal(pv is not None))
        if pv is None:
            return
        has, val = pv
        st.check("P4:named-attributes-are-replaced-by-the-given-values-all-others-keep-their-current-value",
                 z3.And(z3.Select(has, k) == z3.Or(z3.Select(self.kp["has"], k), z3.Select(self.sh0, k)),
                        z3.Implies(z3.Select(self.kp["has"], k), z3.Select(val, k) == z3.Select(self.kp["val"], k)),
                        z3.Implies(z3.And(z3.Not(z3.Select(self.kp["has"], k)), z3.Select(self.sh0, k)),
                                   z3.Select(val, k) == z3.Select(self.sv0, k))))
        st.check("P4:the-result-is-the-newly-constructed-instance-and-the-original-is-untouched",
                 z3.And(ret == self.result, ret != self.obj, self.untouched(it)))

    def on_raise(self, it, exc):
        st = it.st
        st.check("P4:updating-fails-only-when-validation-of-the-new-values-fails",
                 z3.BoolVal(self.ctor_exc is not None) if self.ctor_exc is None else exc == self.ctor_exc)
        st.check("P4:a-failed-update-leaves-the-original-untouched", self.untouched(it))


class Updated(Replace):
    file, func, name = STRUCT, "State.updated", "C04/structure:State.updated"
    entry = "updated"


class Copy(_Rebuild):
    file, func, name = STRUCT, "State.__copy__", "C04/structure:State.__copy__"

    def setup(self, it, env):
        self.base(it)
        return method(it, self.sinfo, self.obj, "__copy__"), CallArgs()

    def on_return(self, it, ret):
        st = it.st
        pv = self.passed(it)
        st.check("P5:a-copy-is-rebuilt-once-through-the-validating-constructor", z3.BoolVal(pv is not None))
        if pv is None:
            return
        has, val = pv
        k = st.fresh_val("name")
        st.check("P5:a-copy-is-built-from-exactly-the-current-attribute-values(equal-by-idempotence,C04-P3)",
                 z3.And(z3.Select(has, k) == z3.Select(self.sh0, k),
                        z3.Implies(z3.Select(self.sh0, k), z3.Select(val, k) == z3.Select(self.sv0, k))))
        st.check("P5:the-original-is-untouched", self.untouched(it))

    def on_raise(self, it, exc):
        it.st.check("P5:copying-fails-only-if-re-validation-fails(excluded-by-idempotence)",
                    z3.BoolVal(self.ctor_exc is not None))


class DeepCopy(_Rebuild):
    file, func, name = STRUCT, "State.__deepcopy__", "C04/structure:State.__deepcopy__"

    def setup(self, it, env):
        st = it.st
        self.base(it)
        self.memo = st.sym_ref("memo", "dict")
        return method(it, self.sinfo, self.obj, "__deepcopy__"), CallArgs([self.memo])

    def on_return(self, it, ret):
        st = it.st
        pv = self.passed(it)
        st.check("P5:a-deep-copy-is-rebuilt-once-through-the-validating-constructor", z3.BoolVal(pv is not None))
        dcs = st.ghost.get("$dictcomps", [])
        if pv is None or len(dcs) != 1:
            st.check("P5:a-deep-copy-is-built-in-one-pass-over-the-attributes", z3.BoolVal(False))
            return
        dc = dcs[0]
        i = st.fresh("i", I)
        arr, lo, hi = dc["src"]
        st.assume(z3.And(lo <= i, i < hi))
        st.check("P5:each-attribute-of-the-deep-copy-is-the-deep-copy-of-that-attribute(equal-values)",
                 z3.And(dc["Ki"](i) == lib.pairs_lookup(it, arr)[0](i),
                        dc["Vi"](i) == L.dc(lib.pairs_lookup(it, arr)[1](i))))
        st.check("P5:the-original-is-untouched", self.untouched(it))

    def on_raise(self, it, exc):
        st = it.st
        rejected = st.ghost.get("$first_rejected") is not None
        st.check("P5:deep-copying-a-state-never-raises", z3.BoolVal(False) if rejected else z3.BoolVal(self.ctor_exc is not None))


# "deriving an updated copy re-validates and replaces exactly the named attributes", "copy and deep copy yield equal instances":
# every derived instance goes through the attribute validators again, so their acceptance = conformance and faithful-conversion
# clauses (C05) carry C04 as well - all of them are re-exported, not only the immutability clauses named C04-*
C04P = ("C04-",)
CONTRACTS = [SetAttr(), DelAttr(), Eq(), Replace(), Updated(), Copy(), DeepCopy()] + \
            [variant(c, "C04", ("",)) for c in (SequenceV, TupleVarV, TupleFixedV, SetV, MappingV, UnionV)] + \
            [variant(Validated, "C04", ("",))]      # defaulted attributes go through the same immutable conversion
